#!/usr/bin/env python3
"""Runs every check against every seeded change — in a private copy, never in /repo or /verif.

Meant for `vp run --with-repo -- python3 tools/crossmatrix.py [seed-name-prefix ...]`: the working
directory is a snapshot of /verif, $VP_RUN_REPO a snapshot of /repo's HEAD. The three places that
name /repo (harness/Cargo.toml, tools/checklib.py, setup.sh) are pointed at the snapshot, the
framework is built there, and for each seeded change the patch is applied to the repo snapshot,
all 20 quick checks are run, and the patch is reverted. One JSON line per (change, check) goes to
crossmatrix.jsonl: {seed, seed_property, check, rc, kind, detail, ops}.

The purpose is precision: a check of property Q that raises an alarm on a change that only breaks
property P is reviewed by hand (is Q really violated, or did the alarm leak from P?).
"""
import sys, os, re, json, subprocess, time, glob

ROOT = os.path.dirname(os.path.dirname(os.path.abspath(__file__)))
REPO = os.environ.get("VP_RUN_REPO") or os.environ.get("REPO")


def sh(cmd, cwd=ROOT, timeout=7200):
    p = subprocess.run(cmd, cwd=cwd, shell=True, stdout=subprocess.PIPE, stderr=subprocess.STDOUT, text=True, timeout=timeout,
                       env=dict(os.environ, CARGO_NET_OFFLINE="true"))
    return p.returncode, p.stdout


def main():
    if not REPO or os.path.realpath(REPO) == "/repo" or os.path.realpath(ROOT) == "/verif":
        print("refusing: run me in a snapshot (vp run --with-repo), not in /verif against /repo")
        return 2
    for f in ("harness/Cargo.toml", "tools/checklib.py", "setup.sh"):
        p = os.path.join(ROOT, f)
        s = open(p).read().replace('"/repo"', f'"{REPO}"').replace('"/repo/', f'"{REPO}/').replace(" /repo/", f" {REPO}/")
        open(p, "w").write(s)
    rc, o = sh("./setup.sh")
    print("setup rc", rc, o[-300:], flush=True)
    own_only = "--own-only" in sys.argv
    prefixes = [a for a in sys.argv[1:] if not a.startswith("--")]
    seeds = sorted(d for d in os.listdir(os.path.join(ROOT, "seeded")) if os.path.exists(os.path.join(ROOT, "seeded", d, "patch.diff")))
    if prefixes:
        seeds = [s for s in seeds if any(s.startswith(p) for p in prefixes)]
    checks = sorted(json.load(open(os.path.join(ROOT, "tools", "claimed.json"))).keys())
    out = open(os.path.join(ROOT, "crossmatrix.jsonl"), "a")
    for seed in seeds:
        meta = json.load(open(os.path.join(ROOT, "seeded", seed, "meta.json")))
        sh("git checkout -- .", cwd=REPO)
        rc, o = sh(f"git apply {ROOT}/seeded/{seed}/patch.diff", cwd=REPO)
        if rc != 0:
            print(seed, "patch does not apply:", o[-200:], flush=True)
            continue
        for c in ([meta.get("property")] if own_only else checks):
            t = time.time()
            for f in glob.glob(os.path.join(ROOT, "replays", "*")):
                os.remove(f)
            rc, o = sh(f"./check {c} --tier quick", timeout=3600)
            viol = [l for l in o.splitlines() if l.startswith("VIOLATION")]
            rec = {"seed": seed, "seed_property": meta.get("property"), "check": c, "rc": rc, "secs": round(time.time() - t, 1)}
            if viol:
                m = re.search(r"replay=(\S+)", viol[0])
                rec["nofail"] = "no-failing-input-found" in viol[0]
                if m and os.path.exists(m.group(1)):
                    b = json.load(open(m.group(1)))
                    rec.update(kind=b.get("kind"), detail=str(b.get("detail"))[:500], ops=b.get("ops", [])[-6:],
                               impl=b.get("implementation", "")[:300], model=b.get("model", "")[:300])
            out.write(json.dumps(rec) + "\n")
            out.flush()
            print(seed, c, rc, rec.get("kind"), flush=True)
        sh("git checkout -- .", cwd=REPO)
    return 0


if __name__ == "__main__":
    sys.exit(main())
