#!/usr/bin/env python3
"""Translator for C18: /repo/src/{lib,entry,iter}.rs -> LruMem/Generated/Decls.lean

Extracts (a) the struct definitions that make up the cache and its iterators, with each field's type
classified for the auto-trait rules; (b) every `unsafe impl ... Send|Sync for ...` with its bounds;
(c) every `pub fn` of lib.rs whose return type contains a reference or a borrowing iterator, with
receiver kind and the lifetimes of the return type.  Anything it cannot parse is an error (exit 1),
never a default.

usage: decls.py <src dir> <output .lean>
"""
import re, sys, os

STRUCTS_OF_INTEREST = ["LruCache", "Entry", "EntryPtr", "UnhingedEntry", "Iter", "Keys", "Values",
                       "TakingIterator", "Drain", "IntoIter", "IntoKeys", "IntoValues", "ReallocationGuard"]
WRAPPERS = {"PhantomData", "MaybeUninit", "RawTable", "Option", "Box"}
PLAIN = {"usize", "u64", "u32", "bool", "()", "isize"}
BORROWING_TYPES = {"Iter", "Keys", "Values", "Drain"}


class Err(Exception):
    pass


def strip_comments(src):
    src = re.sub(r"//[^\n]*", "", src)
    return re.sub(r"/\*.*?\*/", "", src, flags=re.S)


def split_top(s, sep=","):
    """split on sep at angle/paren depth 0"""
    out, depth, cur = [], 0, ""
    i = 0
    while i < len(s):
        ch = s[i]
        if ch in "<([":
            depth += 1
        elif ch in ">)]":
            if ch == ">" and i > 0 and s[i - 1] == "-":
                pass
            else:
                depth -= 1
        if ch == sep and depth == 0:
            out.append(cur)
            cur = ""
        else:
            cur += ch
        i += 1
    if cur.strip():
        out.append(cur)
    return [x.strip() for x in out if x.strip()]


class Names:
    def __init__(self):
        self.params = {"K": 0, "V": 1, "S": 2}
        self.structs = {}
        self.lts = {}
        self.fns = {}

    def param(self, n):
        if n not in self.params:
            self.params[n] = len(self.params)
        return self.params[n]

    def struct(self, n):
        if n not in self.structs:
            self.structs[n] = len(self.structs)
        return self.structs[n]

    def lt(self, n):
        if n not in self.lts:
            self.lts[n] = len(self.lts)
        return self.lts[n]

    def fn(self, n):
        if n not in self.fns:
            self.fns[n] = len(self.fns)
        return self.fns[n]


def parse_generics(g):
    """'a, K: Send, V, S = Foo  ->  (lifetimes, [(param, [bounds])])"""
    lts, params = [], []
    for item in split_top(g):
        if item.startswith("'"):
            lts.append(item.split(":")[0].strip())
            continue
        if item.startswith("const "):
            continue
        name = re.split(r"[:=]", item)[0].strip()
        bounds = []
        if ":" in item:
            b = item.split(":", 1)[1].split("=")[0]
            bounds = [x.strip() for x in b.split("+") if x.strip()]
        params.append((name, bounds))
    return lts, params


def parse_type(t, params, names, known):
    t = t.strip()
    if t.startswith("*mut ") or t.startswith("*const "):
        return ".rawPtr"
    m = re.match(r"&\s*('\w+)?\s*mut\s+(.*)$", t)
    if m:
        lt = m.group(1) or "'_"
        return f"(.refMut {names.lt(lt)} {parse_type(m.group(2), params, names, known)})"
    m = re.match(r"&\s*('\w+)?\s*(.*)$", t)
    if m and t.startswith("&"):
        lt = m.group(1) or "'_"
        return f"(.ref {names.lt(lt)} {parse_type(m.group(2), params, names, known)})"
    if t in PLAIN:
        return ".plain"
    if t in params:
        return f"(.param {names.param(t)})"
    m = re.match(r"(\w+)\s*<(.*)>$", t, flags=re.S)
    if m:
        head, args = m.group(1), split_top(m.group(2))
        lts = [a for a in args if a.startswith("'")]
        tys = [a for a in args if not a.startswith("'")]
        tys_l = "[" + ", ".join(parse_type(a, params, names, known) for a in tys) + "]"
        if head in WRAPPERS:
            return f"(.wrap {names.struct(head)} {tys_l})"
        if head in known:
            lts_l = "[" + ", ".join(str(names.lt(l)) for l in lts) + "]"
            return f"(.named {names.struct(head)} {lts_l} {tys_l})"
        raise Err(f"unknown generic type `{t}`")
    if re.match(r"^\w+$", t):
        if t in known:
            return f"(.named {names.struct(t)} [] [])"
        raise Err(f"unknown type `{t}`")
    raise Err(f"cannot classify type `{t}`")


STRUCT_RE = r"(?:pub(?:\([^)]*\))?\s+)?struct\s+(\w+)\s*(<[^{;]*>)?\s*\{(.*?)\n\}"


def all_struct_names(*srcs):
    """every braced struct defined in the given sources (helper types a refactoring introduces included)"""
    return {m.group(1) for src in srcs for m in re.finditer(STRUCT_RE, src, flags=re.S)}


def find_structs(src, names, known=None):
    out = []
    known = set(known or STRUCTS_OF_INTEREST)
    for m in re.finditer(r"(?:pub(?:\([^)]*\))?\s+)?struct\s+(\w+)\s*(<[^{;]*>)?\s*\{(.*?)\n\}", src, flags=re.S):
        name, gen, body = m.group(1), m.group(2), m.group(3)
        if name not in known:
            continue
        lts, params = parse_generics(gen[1:-1]) if gen else ([], [])
        pnames = [p for p, _ in params]
        fields = []
        for f in split_top(body):
            f = re.sub(r"#\[[^\]]*\]", "", f).strip()
            f = re.sub(r"^pub(\([^)]*\))?\s+", "", f)
            if ":" not in f:
                raise Err(f"cannot parse field `{f}` of {name}")
            fname, fty = f.split(":", 1)
            fields.append((fname.strip(), parse_type(fty, pnames, names, known)))
        out.append((name, lts, pnames, fields))
    return out


def find_impls(src, names):
    out = []
    for m in re.finditer(r"unsafe\s+impl\s*<([^{]*?)>\s*(Send|Sync)\s+for\s+(\w+)\s*<([^{>]*)>\s*(where[^{]*)?\{", src, flags=re.S):
        gen, tr, target, targs, where = m.groups()
        _, params = parse_generics(gen)
        bounds = {p: list(b) for p, b in params}
        if where:
            for item in split_top(where[len("where"):]):
                if ":" in item:
                    p, b = item.split(":", 1)
                    bounds.setdefault(p.strip(), []).extend(x.strip() for x in b.split("+") if x.strip())
        target_params = [a for a in split_top(targs) if not a.startswith("'")]
        # bounds are recorded against the *struct's* parameter positions; require the impl to be of
        # the plain form `for T<P1, P2, ...>` with its own parameters in order
        for a in target_params:
            if a not in bounds:
                raise Err(f"impl {tr} for {target}: target argument `{a}` is not a parameter of the impl")
        out.append((tr, target, [(a, bounds[a]) for a in target_params]))
    # any safe impl of Send/Sync would not compile; negative impls are nightly-only
    if re.search(r"impl\s*<[^{]*>\s*!\s*(Send|Sync)", src):
        raise Err("negative impl found")
    return out


def find_apis(src, names):
    out = []
    for m in re.finditer(r"\n    pub fn\s+(\w+)\s*(<[^(]*>)?\s*\((.*?)\)\s*(?:->\s*(.*?))?\s*(?:where.*?)?\{", src, flags=re.S):
        name, gen, args, ret = m.groups()
        if not ret:
            continue
        ret = " ".join(ret.split())
        mentions = "&" in ret or "'" in ret or any(re.search(r"\b" + b + r"\b", ret) for b in BORROWING_TYPES)
        if not mentions:
            continue
        fn_lts = parse_generics(gen[1:-1])[0] if gen else []
        a0 = split_top(args)[0] if split_top(args) else ""
        a0 = " ".join(a0.split())
        recv_lt = None
        m2 = re.match(r"&\s*('\w+)?\s*(mut\s+)?self$", a0)
        if m2:
            recv = ".excl" if m2.group(2) else ".shared"
            recv_lt = m2.group(1)
        elif a0 in ("self", "mut self"):
            recv = ".owned"
        else:
            recv = ".none"
        outs = []
        for mm in re.finditer(r"&\s*('\w+)?", ret):
            lt = mm.group(1)
            outs.append(".elided" if lt is None or lt == "'_" else (".static_" if lt == "'static" else f"(.named {names.lt(lt)})"))
        for mm in re.finditer(r"\b(" + "|".join(BORROWING_TYPES) + r")\s*<\s*('\w+)?", ret):
            lt = mm.group(2)
            outs.append(".elided" if lt is None or lt == "'_" else (".static_" if lt == "'static" else f"(.named {names.lt(lt)})"))
        for b in BORROWING_TYPES:
            if re.search(r"\b" + b + r"\b(?!\s*<)", ret):
                outs.append(".elided")
        if not outs:
            raise Err(f"fn {name}: return type `{ret}` mentions a borrow but no lifetime position was found")
        out.append((name, recv, recv_lt, fn_lts, outs))
    return out


def find_callbacks(src, names):
    """pub fns that take a closure which is shown references into the cache (`F: FnMut(&K, &V) -> bool`,
    `F: FnOnce(&mut V) -> R`): the lifetime of every reference parameter of the closure type."""
    out = []
    for m in re.finditer(r"\n    pub fn\s+(\w+)\s*(<[^(]*>)?\s*\((.*?)\)\s*(?:->\s*[^{]*?)?\s*(where.*?)?\{", src, flags=re.S):
        name, gen, args, where = m.groups()
        text = " ".join(((gen or "") + " " + (where or "")).split())
        for mm in re.finditer(r"\bFn(?:Mut|Once)?\s*\(([^)]*)\)", text):
            params = split_top(mm.group(1))
            lts = []
            for prm in params:
                r = re.match(r"&\s*('\w+)?\s*(mut\s+)?", prm.strip())
                if r:
                    lt = r.group(1)
                    lts.append(".elided" if lt is None or lt == "'_" else (".static_" if lt == "'static" else f"(.named {names.lt(lt)})"))
            if lts:
                out.append((name, lts))
    return out


def main():
    src_dir, out_path = sys.argv[1], sys.argv[2]
    names = Names()
    try:
        lib = strip_comments(open(os.path.join(src_dir, "lib.rs")).read())
        lib = lib.split("#[cfg(test)]")[0]
        entry = strip_comments(open(os.path.join(src_dir, "entry.rs")).read()).split("#[cfg(test)]")[0]
        it = strip_comments(open(os.path.join(src_dir, "iter.rs")).read()).split("#[cfg(test)]")[0]
        for w in sorted(WRAPPERS):
            names.struct(w)
        known = all_struct_names(lib, entry, it) - {"VerifNode", "VerifWalk"}
        structs = find_structs(lib, names, known) + find_structs(entry, names, known) + find_structs(it, names, known)
        have = {s[0] for s in structs}
        for need in ("LruCache", "Entry", "EntryPtr", "Iter", "Keys", "Values", "Drain"):
            if need not in have:
                raise Err(f"struct {need} not found")
        impls = find_impls(lib + entry + it, names)
        apis = find_apis(lib, names)
        if not apis:
            raise Err("no borrowing API found")
        callbacks = find_callbacks(lib, names)
        for need in ("retain", "mutate"):
            if need not in [c[0] for c in callbacks]:
                raise Err(f"pub fn {need}: no closure parameter that takes references found")
    except Err as e:
        print(f"decls.py: {e}")
        return 1
    L = []
    L.append("namespace LruMem.Generated")
    L.append("open LruMem.Decls")
    L.append("")
    L.append("def structs : List Struct := [")
    rows = []
    for (name, lts, params, fields) in structs:
        fl = ", ".join(f"({i}, {ty})" for i, (fn, ty) in enumerate(fields))
        rows.append(f"  -- {name}<{', '.join(lts + params)}> fields: {', '.join(fn for fn, _ in fields)}\n"
                    f"  {{ name := {names.struct(name)}, lifetimes := [{', '.join(str(names.lt(l)) for l in lts)}], "
                    f"params := [{', '.join(str(names.param(p)) for p in params)}], fields := [{fl}] }}")
    L.append(",\n".join(rows))
    L.append("]")
    L.append("")
    L.append("def impls : List ExplicitImpl := [")
    rows = []
    for (tr, target, bounds) in impls:
        bl = ", ".join(f"({names.param(p)}, [{', '.join(str({'Send': 0, 'Sync': 1}.get(b, 2)) for b in bs)}])" for p, bs in bounds)
        rows.append(f"  -- unsafe impl {tr} for {target}: " + "; ".join(f"{p}: {'+'.join(bs) or '-'}" for p, bs in bounds) +
                    f"\n  {{ tr := .{tr.lower()}, target := {names.struct(target)}, bounds := [{bl}] }}")
    L.append(",\n".join(rows))
    L.append("]")
    L.append("")
    L.append("def apis : List Api := [")
    rows = []
    for (name, recv, recv_lt, fn_lts, outs) in apis:
        rl = "none" if recv_lt is None else f"(some {names.lt(recv_lt)})"
        rows.append(f"  -- pub fn {name}\n  {{ name := {names.fn(name)}, recv := {recv}, recvLt := {rl}, "
                    f"fnLifetimes := [{', '.join(str(names.lt(l)) for l in fn_lts)}], outs := [{', '.join(outs)}] }}")
    L.append(",\n".join(rows))
    L.append("]")
    L.append("")
    L.append("/-- per function taking a closure that is shown references into the cache: the lifetimes of the closure's reference parameters -/")
    L.append("def callbacks : List (Nat × List OutLt) := [")
    L.append(",\n".join(f"  -- pub fn {name}\n  ({names.fn(name)}, [{', '.join(lts)}])" for name, lts in callbacks))
    L.append("]")
    L.append("")
    L.append("def table : Table := { structs := structs, impls := impls, apis := apis }")
    L.append("")
    L.append(f"def lruCacheId : Nat := {names.struct('LruCache')}")
    L.append(f"def borrowingIterIds : List Nat := [{', '.join(str(names.struct(b)) for b in sorted(BORROWING_TYPES))}]")
    # the public view types, by what they give access to: `&` to the entries, `&mut` to the cache, the cache itself
    for lst, members in (("sharedIterIds", ["Iter", "Keys", "Values"]), ("exclIterIds", ["Drain"]),
                         ("owningIterIds", ["IntoIter", "IntoKeys", "IntoValues"])):
        for m_ in members:
            if m_ not in names.structs:
                raise Err(f"public iterator type {m_} not found in the source")
        L.append(f"def {lst} : List Nat := [{', '.join(str(names.struct(b)) for b in members)}]")
    api_names = ", ".join('(%d, "%s")' % (v, k) for k, v in names.fns.items())
    L.append("def apiNames : List (Nat × String) := [" + api_names + "]")
    L.append("")
    L.append("end LruMem.Generated")
    H = ["import LruMem.Model.Decls",
         "/-! GENERATED by /verif/tools/decls.py from /repo/src — do not edit; regenerated on every check run.",
         "",
         "struct ids: " + ", ".join(f"{k}={v}" for k, v in names.structs.items()),
         "type parameter ids: " + ", ".join(f"{k}={v}" for k, v in names.params.items()),
         "lifetime ids: " + ", ".join(f"{k}={v}" for k, v in names.lts.items()),
         "function ids: " + ", ".join(f"{k}={v}" for k, v in names.fns.items()),
         "-/"]
    text = "\n".join(H + L) + "\n"
    old = open(out_path).read() if os.path.exists(out_path) else None
    if old != text:
        os.makedirs(os.path.dirname(out_path), exist_ok=True)
        open(out_path, "w").write(text)
    return 0


if __name__ == "__main__":
    sys.exit(main())
