#!/usr/bin/env python3
"""Runs every check against a *harmless* change (one that preserves all 20 properties) and records which
checks raise an alarm — each of those is a false alarm to be understood.

usage: harmrun.py <scratch worktree with the change applied> <name>      (stores /verif/harmless/<name>/)
       harmrun.py --recheck <name|all>
Applies the patch to /repo, runs the 20 quick checks, reverts /repo (and regenerates the generated Lean tables).
"""
import sys, os, subprocess, json, re, time, shutil

ROOT = "/verif"


def sh(cmd, cwd=None, timeout=7200):
    p = subprocess.run(cmd, cwd=cwd, shell=True, stdout=subprocess.PIPE, stderr=subprocess.STDOUT, text=True, timeout=timeout,
                       env=dict(os.environ, CARGO_NET_OFFLINE="true"))
    return p.returncode, p.stdout


def run_checks(name):
    out = os.path.join(ROOT, "harmless", name)
    rc, o = sh("git -C /repo status --short")
    if o.strip():
        print("refusing: /repo is dirty:", o)
        return 2
    rc, o = sh(f"git -C /repo apply {out}/patch.diff")
    if rc != 0:
        print("patch does not apply:", o)
        return 2
    meta = json.load(open(os.path.join(out, "meta.json"))) if os.path.exists(os.path.join(out, "meta.json")) else {"name": name}
    meta["checks"] = {}
    claimed = sorted(json.load(open(os.path.join(ROOT, "tools", "claimed.json"))).keys())
    try:
        rc1, o1 = sh("cargo test --offline --no-fail-fast --lib --test capacity-management --test many-accesses --test memory-leak 2>&1 | grep 'test result'", cwd="/repo")
        meta["suite"] = o1.strip().splitlines()
        for c in claimed:
            t = time.time()
            rc, o = sh(f"./check {c} --tier quick", cwd=ROOT, timeout=3600)
            viol = [l for l in o.splitlines() if l.startswith("VIOLATION")]
            detail = None
            if viol:
                m = re.search(r"replay=(\S+)", viol[0])
                if m and os.path.exists(m.group(1)):
                    b = json.load(open(m.group(1)))
                    detail = {"kind": b.get("kind"), "ops": b.get("ops", [])[-6:], "detail": str(b.get("detail"))[:600],
                              "impl": b.get("implementation", "")[:400], "model": b.get("model", "")[:400]}
            meta["checks"][c] = {"rc": rc, "violation": viol[0] if viol else None, "replay": detail, "secs": round(time.time() - t, 1)}
            print(f"[{name}] {c}: rc={rc} {viol[0] if viol else ''}", flush=True)
    finally:
        sh("git -C /repo checkout -- .")
        sh(f"python3 {ROOT}/tools/decls.py /repo/src {ROOT}/lean/LruMem/Generated/Decls.lean; python3 {ROOT}/tools/memdecls.py /repo/src {ROOT}/lean/LruMem/Generated/MemDecls.lean")
        for f in os.listdir(os.path.join(ROOT, "replays")):
            os.remove(os.path.join(ROOT, "replays", f))
    meta["alarms"] = sorted(c for c, v in meta["checks"].items() if v["rc"] != 0)
    meta["at_verif_commit"] = sh("git -C /verif rev-parse --short HEAD")[1].strip()
    json.dump(meta, open(os.path.join(out, "meta.json"), "w"), indent=1)
    print(f"[{name}] alarms: {meta['alarms'] or 'none'}")
    return 0


def main():
    if sys.argv[1] == "--recheck":
        names = sorted(os.listdir(os.path.join(ROOT, "harmless"))) if sys.argv[2] == "all" else sys.argv[2].split(",")
        for n in names:
            if os.path.exists(os.path.join(ROOT, "harmless", n, "patch.diff")):
                run_checks(n)
        return 0
    wt, name = sys.argv[1], sys.argv[2]
    out = os.path.join(ROOT, "harmless", name)
    os.makedirs(out, exist_ok=True)
    sh("git diff -- src > patch.diff", cwd=wt)
    shutil.copy(os.path.join(wt, "patch.diff"), os.path.join(out, "patch.diff"))
    if os.path.exists(os.path.join(wt, "HARMLESS_NOTES.md")):
        shutil.copy(os.path.join(wt, "HARMLESS_NOTES.md"), os.path.join(out, "NOTES.md"))
    return run_checks(name)


if __name__ == "__main__":
    sys.exit(main())
