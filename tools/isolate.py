#!/usr/bin/env python3
"""For `vp run --with-repo -- python3 tools/isolate.py <command...>`: points the three places that name /repo
(harness/Cargo.toml, tools/checklib.py, setup.sh) at the run's private snapshot of /repo ($VP_RUN_REPO), builds the
framework in the snapshot of /verif, and runs the command there — so a long run (thorough tier, matrices) is not
disturbed by patches applied to /repo meanwhile. Results of such runs are not evidence (they are not /repo)."""
import os, sys, subprocess
ROOT = os.path.dirname(os.path.dirname(os.path.abspath(__file__)))
REPO = os.environ.get("VP_RUN_REPO")
if not REPO or os.path.realpath(ROOT) == "/verif":
    sys.exit("refusing: run me in a snapshot (vp run --with-repo)")
for f in ("harness/Cargo.toml", "tools/checklib.py", "setup.sh"):
    p = os.path.join(ROOT, f)
    s = open(p).read().replace('"/repo"', f'"{REPO}"').replace('"/repo/', f'"{REPO}/').replace(" /repo/", f" {REPO}/")
    open(p, "w").write(s)
subprocess.run("./setup.sh", cwd=ROOT, shell=True)
sys.exit(subprocess.run(sys.argv[1:], cwd=ROOT).returncode)
