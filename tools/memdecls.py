#!/usr/bin/env python3
"""Translator for C08 / C09: /repo/src/mem_size.rs -> LruMem/Generated/MemDecls.lean

Every `impl … HeapSize for X`, the two macros (`basic_mem_size!`, `tuple_heap_size!`) with their invocations,
the trait's default bulk helpers, the `ValueSize` blanket impl and `MemSize`, and the body of
`SizedArrayFlatIterator::next` are parsed; each method body is normalised (comments and whitespace removed,
`let` bindings inlined, top-level `+` terms and `*` factors sorted) and every factor is mapped to an *atom* of a
small expression language (`self.capacity()`, `mem::size_of::<T>()`, `T::heap_size_sum_exact_size_iter(|| self.iter())`,
…). A phrase the translator does not know becomes `.unknown <hash>` — never a guess. The Lean side
(`LruMem/Model/MemDecl.lean`) says what each atom means and which table the hand-written model of
`Model/MemSize.lean` was transcribed from; `Props/C08b.lean` proves that the regenerated table *is* that table.

usage: memdecls.py <src dir> <output .lean>
"""
import re, sys, os, hashlib


class Err(Exception):
    pass


def strip_comments(src):
    src = re.sub(r"//[^\n]*", "", src)
    return re.sub(r"/\*.*?\*/", "", src, flags=re.S)


def balanced(src, i, open_ch="{", close_ch="}"):
    """src[i] == open_ch; returns index just after the matching close."""
    depth = 0
    for j in range(i, len(src)):
        if src[j] == open_ch:
            depth += 1
        elif src[j] == close_ch:
            depth -= 1
            if depth == 0:
                return j + 1
    raise Err("unbalanced braces")


def split_top(s, sep):
    out, depth, cur = [], 0, ""
    i = 0
    while i < len(s):
        ch = s[i]
        if ch in "([{":
            depth += 1
        elif ch in ")]}":
            depth -= 1
        elif ch == "<" and i > 0 and (s[i - 1].isalnum() or s[i - 1] in ":_"):
            depth += 1
        elif ch == ">" and depth > 0 and not (i > 0 and s[i - 1] in "=-"):
            depth -= 1
        if ch == sep and depth == 0:
            out.append(cur)
            cur = ""
        else:
            cur += ch
        i += 1
    out.append(cur)
    return out


ATOMS = [
    (r"0", ".zero"),
    (r"self\.capacity\(\)", ".cap"),
    (r"mem::size_of::<T>\(\)", ".sizeOfElem"),
    (r"mem::size_of::<\(K,V\)>\(\)", ".sizeOfPair"),
    (r"self\.as_bytes_with_nul\(\)\.len\(\)", ".lenNul"),
    (r"self\.0\.heap_size\(\)", "(.field 0)"),
    (r"self\.start\.heap_size\(\)", "(.field 1)"),
    (r"self\.end\.heap_size\(\)", "(.field 2)"),
    (r"self\.start\(\)\.heap_size\(\)", "(.field 1)"),
    (r"self\.end\(\)\.heap_size\(\)", "(.field 2)"),
    (r"self\.as_slice\(\)\.heap_size\(\)", ".asSlice"),
    (r"self\[\.\.\]\.heap_size\(\)", ".asSlice"),
    (r"T::heap_size_sum_exact_size_iter\(\|\|self\.iter\(\)\)", "(.exactOver 0)"),
    (r"K::heap_size_sum_exact_size_iter\(\|\|self\.keys\(\)\)", "(.exactOver 1)"),
    (r"V::heap_size_sum_exact_size_iter\(\|\|self\.values\(\)\)", "(.exactOver 2)"),
    (r"self\.hasher\(\)\.heap_size\(\)", ".hasher"),
    (r"T::mem_size\(self\.as_ref\(\)\)", ".derefMem"),
    (r"self\.lock\(\)\.unwrap\(\)\.heap_size\(\)", ".locked"),
    (r"self\.read\(\)\.unwrap\(\)\.heap_size\(\)", ".locked"),
    (r"matchself\{Some\(v\)=>v\.heap_size\(\),None=>0,?\}", ".matchOpt"),
    (r"matchself\{Ok\(v\)=>v\.heap_size\(\),Err\(e\)=>e\.heap_size\(\),?\}", ".matchRes"),
    # the same two, written with combinators
    (r"self\.as_ref\(\)\.map_or\(0,HeapSize::heap_size\)", ".matchOpt"),
    (r"self\.as_ref\(\)\.map_or\(0,\|v\|v\.heap_size\(\)\)", ".matchOpt"),
    (r"matchself\{None=>0,Some\(v\)=>v\.heap_size\(\),?\}", ".matchOpt"),
    (r"matchself\{Err\(e\)=>e\.heap_size\(\),Ok\(v\)=>v\.heap_size\(\),?\}", ".matchRes"),
    # bulk helpers
    (r"T::heap_size_sum_iter\(\|\|make_iter\(\)\.map\(\|item\|&item\.0\)\)", "(.delegField false)"),
    (r"T::heap_size_sum_exact_size_iter\(\|\|make_iter\(\)\.map\(\|item\|&item\.0\)\)", "(.delegField true)"),
    (r"<\[T\]>::heap_size_sum_iter\(\|\|make_iter\(\)\.map\(\|item\|&item\[\.\.\]\)\)", ".sliceOfArrays"),
    (r"T::heap_size_sum_iter\(\|\|make_iter\(\)\.map\(\|item\|&\*\*item\)\)", "(.delegDeref false)"),
    (r"T::heap_size_sum_exact_size_iter\(\|\|make_iter\(\)\.map\(\|item\|&\*\*item\)\)", "(.delegDeref true)"),
    (r"T::value_size_sum_iter\(make_iter\(\)\.map\(\|item\|&\*\*item\)\)", "(.valueDeref false)"),
    (r"T::value_size_sum_exact_size_iter\(make_iter\(\)\.map\(\|item\|&\*\*item\)\)", "(.valueDeref true)"),
    (r"T::heap_size_sum_exact_size_iter\(\|\|SizedArrayFlatIterator\{current_section:SliceIter::default\(\),subsequent_sections:make_iter\(\),?\}\)", ".flat"),
    # trait defaults
    (r"make_iter\(\)\.map\(HeapSize::heap_size\)\.sum\(\)", ".mapHeapSum"),
    (r"Self::heap_size_sum_iter\(make_iter\)", ".viaSumIter"),
    (r"iterator\.map\(ValueSize::value_size\)\.sum\(\)", ".mapValueSum"),
    (r"Self::value_size_sum_iter\(iterator\)", ".viaValueSumIter"),
    (r"mem::size_of::<Self>\(\)", ".sizeOfSelf"),
    (r"iterator\.count\(\)", ".iterCount"),
    (r"iterator\.len\(\)", ".iterLen"),
    (r"mem::size_of_val\(self\)", ".sizeOfVal"),
    (r"self\.value_size\(\)", ".valueSize"),
    (r"self\.heap_size\(\)", ".heapSize"),
]


def alpha_macro(t):
    """Metavariables and closure parameters of a macro body are bound names: number them in order of first appearance."""
    names = []
    for m in re.finditer(r"\$(\w+)", t):
        if m.group(1) not in names:
            names.append(m.group(1))
    for i, n in enumerate(names):
        t = re.sub(r"\$" + n + r"\b", f"$m{i}", t)
    cl = []
    for m in re.finditer(r"\|(\w+)\|", t):
        if m.group(1) not in cl:
            cl.append(m.group(1))
    for i, n in enumerate(cl):
        t = re.sub(r"(?<![\w$])" + n + r"\b", f"c{i}", t)
    return t


def canon(s):
    """Spelling differences that mean the same: the path to size_of / size_of_val, method calls written as
    `Type::method(self)`."""
    s = re.sub(r"(?<![\w:])(?:(?:::)?(?:std|core)::)?(?:mem::)?(size_of(?:_val)?)(?=::<|\()", r"mem::\1", s)
    s = re.sub(r"(?<![\w:])(?:<[^<>]*>|\w+(?:::<[^<>]*>)?)::(capacity|as_slice|hasher|iter|keys|values|len|as_bytes_with_nul|as_ref|start|end)\(&?self\)", r"self.\1()", s)
    s = re.sub(r"\.expect\(\"[^\"]*\"\)", ".unwrap()", s)
    # a receiver that a let-inlining put in parentheses
    for _ in range(3):
        s = re.sub(r"\((self(?:\.\w+(?:\(\))?)+)\)\.", r"\1.", s)
    # bindings of match arms are bound names
    for ctor, name in (("Some", "v"), ("Ok", "v"), ("Err", "e")):
        m = re.search(ctor + r"\((\w+)\)=>", s)
        if m and m.group(1) != name and not re.search(r"\b" + name + r"\b", s):
            s = re.sub(r"\b" + m.group(1) + r"\b", name, s)
    # field names of the private flat iterator
    s = re.sub(r"SizedArrayFlatIterator\{\w+:SliceIter::default\(\),\w+:make_iter\(\),?\}",
               "SizedArrayFlatIterator{current_section:SliceIter::default(),subsequent_sections:make_iter(),}", s)
    # closure parameters are bound names: |w| &w.0  ==  |item| &item.0
    for m in list(re.finditer(r"\|(\w+)\|", s)):
        v = m.group(1)
        if v != "item" and not re.search(r"\bitem\b", s):
            s = re.sub(r"\b" + v + r"\b", "item", s)
    return s


def atom(s):
    s = canon(s)
    for rx, lean in ATOMS:
        if re.fullmatch(rx, s):
            return lean
    h = int(hashlib.sha1(s.encode()).hexdigest()[:8], 16)
    return f"(.unknown {h})"


def normalise_body(body):
    """`{ let a = E1; let b = E2; FINAL }` -> sum of products of atoms (sorted), as Lean text."""
    body = body.strip()
    assert body[0] == "{" and body[-1] == "}"
    inner = body[1:-1]
    stmts = [x.strip() for x in split_top(inner, ";")]
    final = stmts[-1]
    env = {}
    for st in stmts[:-1]:
        # destructuring: `let Range { start, end } = self;`  /  `let (a, b) = (X, Y);`
        m = re.match(r"let\s+\w+\s*\{([\w\s,]*)\}\s*=\s*self$", st, flags=re.S)
        if m:
            for f in m.group(1).split(","):
                if f.strip():
                    env[f.strip()] = "self." + f.strip()
            continue
        m = re.match(r"let\s*\(([\w\s,]*)\)\s*=\s*\((.*)\)$", st, flags=re.S)
        if m:
            names = [x.strip() for x in m.group(1).split(",") if x.strip()]
            vals = [x.strip() for x in split_top(m.group(2), ",") if x.strip()]
            if len(names) == len(vals):
                for n_, v_ in zip(names, vals):
                    env[n_] = v_
                continue
        m = re.match(r"let\s+(\w+)\s*(?::[^=]*)?=\s*(.*)$", st, flags=re.S)
        if not m:
            return "[[" + atom("".join(inner.split())) + "]]"
        env[m.group(1)] = m.group(2)
    # inline lets (a few rounds: bindings may use earlier ones)
    for _ in range(6):
        for k, v in env.items():
            final = re.sub(r"(?<![\w.])" + k + r"\b", "(" + v + ")", final)
    flat = "".join(final.split())
    # strip redundant outer parentheses of terms
    def unparen(t):
        while t.startswith("(") and t.endswith(")") and balanced(t, 0, "(", ")") == len(t):
            t = t[1:-1]
        return t
    terms = []
    def add_terms(e):
        for t in split_top(unparen(e), "+"):
            t = unparen(t)
            if len(split_top(t, "+")) > 1:
                add_terms(t)
            else:
                terms.append(t)
    add_terms(flat)
    prods = []
    for t in terms:
        factors = sorted(atom(unparen(f)) for f in split_top(t, "*"))
        prods.append("[" + ", ".join(factors) + "]")
    return "[" + ", ".join(sorted(prods)) + "]"


TARGETS = {
    "Wrapping<T>": "wrapping", "[T]": "slice", "[T;N]": "array", "Vec<T>": "vec", "HashMap<K,V,S>": "hashMap",
    "HashSet<T,S>": "hashSet", "BinaryHeap<T>": "binaryHeap", "Box<T>": "box", "Mutex<T>": "mutex", "RwLock<T>": "rwLock",
    "String": "string", "CString": "cString", "OsString": "osString", "&T": "ref", "&mutT": "refMut", "Option<T>": "option",
    "Result<V,E>": "result", "PhantomData<T>": "phantom", "Range<I>": "range", "RangeFrom<I>": "rangeFrom", "RangeTo<I>": "rangeTo",
    "RangeInclusive<I>": "rangeInclusive", "RangeToInclusive<I>": "rangeToInclusive", "Path": "path", "PathBuf": "pathBuf",
}


def methods_of(block):
    """{name: body text} for the `fn`s of an impl/trait block (bodies only; declarations without body are skipped)."""
    out = {}
    for m in re.finditer(r"\bfn\s+(\w+)", block):
        name = m.group(1)
        j = m.end()
        # find the body `{` or a `;` (declaration), at depth 0 of parentheses/angle brackets
        depth = 0
        k = j
        while k < len(block):
            ch = block[k]
            if ch in "(<":
                depth += 1
            elif ch in ")>" and not (ch == ">" and block[k - 1] in "-="):
                depth -= 1
            elif ch == ";" and depth <= 0:
                k = -1
                break
            elif ch == "{" and depth <= 0:
                break
            k += 1
        if k < 0 or k >= len(block):
            continue
        end = balanced(block, k)
        body = block[k:end]
        # the single parameter of a bulk helper is a bound name
        canon_param = {"heap_size_sum_iter": "make_iter", "heap_size_sum_exact_size_iter": "make_iter",
                       "value_size_sum_iter": "iterator", "value_size_sum_exact_size_iter": "iterator"}.get(name)
        if canon_param:
            sig = block[j:k]
            pm = re.search(r"\(\s*(\w+)\s*:", sig[sig.rfind("(", 0, sig.find(")") if ")" in sig else len(sig)):] if "(" in sig else "")
            if pm and pm.group(1) not in (canon_param, "self") and not re.search(r"\b" + canon_param + r"\b", body):
                body = re.sub(r"\b" + pm.group(1) + r"\b", canon_param, body)
        out[name] = body
    return out


def main():
    src_dir, out_path = sys.argv[1], sys.argv[2]
    try:
        src = strip_comments(open(os.path.join(src_dir, "mem_size.rs")).read()).split("#[cfg(test)]")[0]
        rows = []
        # explicit impls
        for m in re.finditer(r"\bimpl\s*(<[^{]*?>)?\s*HeapSize\s+for\s+([^{]+?)\s*(where[^{]*)?\{", src):
            target = "".join(m.group(2).split())
            if target.startswith("$") or "$" in target:
                continue
            start = src.index("{", m.end() - 1)
            block = src[start:balanced(src, start)]
            ms = methods_of(block[1:-1])
            if "heap_size" not in ms:
                raise Err(f"impl HeapSize for {target}: no heap_size body")
            if target not in TARGETS:
                raise Err(f"impl HeapSize for `{target}`: a type the model does not know")
            rows.append((TARGETS[target], normalise_body(ms["heap_size"]),
                         normalise_body(ms["heap_size_sum_iter"]) if "heap_size_sum_iter" in ms else None,
                         normalise_body(ms["heap_size_sum_exact_size_iter"]) if "heap_size_sum_exact_size_iter" in ms else None))
        if len(rows) < 20:
            raise Err(f"only {len(rows)} HeapSize impls found")
        # macros
        mb = re.search(r"macro_rules!\s*basic_mem_size\s*\{", src)
        if not mb:
            raise Err("macro basic_mem_size not found")
        bblock = src[mb.end() - 1:balanced(src, mb.end() - 1)]
        bms = methods_of(bblock)
        basic = [normalise_body(bms.get(k, "{missing}")) for k in ("heap_size", "heap_size_sum_iter", "heap_size_sum_exact_size_iter")]
        basic_types = re.findall(r"^basic_mem_size!\(\s*([^)]*?)\s*\);", src, flags=re.M)
        mt = re.search(r"macro_rules!\s*tuple_heap_size\s*\{", src)
        if not mt:
            raise Err("macro tuple_heap_size not found")
        tblock = "".join(alpha_macro(src[mt.end() - 1:balanced(src, mt.end() - 1)]).split())
        tuple_ok = ("0$(+$m0.heap_size())+" in tblock
                    and "tuple_heap_size!(@sum_iter_termsheap_size_sum_iter,make_iter,$($m0),+;($($m0),+))" in tblock
                    and "tuple_heap_size!(@sum_iter_termsheap_size_sum_exact_size_iter,make_iter,$($m0),+;($($m0),+))" in tblock
                    and "0$(+$m0::$m1(||$m2().map(|c0|tuple_heap_size!(@extract_from_tuplec0,$m0,$m3))))+" in tblock
                    and "let($($m0,)+)=$m4;$m5" in tblock)
        arities = sorted(len(split_top(a, ",")) for a in re.findall(r"^tuple_heap_size!\(([^)@]*)\);", src, flags=re.M))
        # trait defaults and blanket impls
        th = re.search(r"pub\s+trait\s+HeapSize\s*\{", src)
        tv = re.search(r"pub\s+trait\s+ValueSize\s*\{", src)
        if not th or not tv:
            raise Err("trait HeapSize / ValueSize not found")
        hms = methods_of(src[th.end() - 1:balanced(src, th.end() - 1)][1:-1])
        vms = methods_of(src[tv.end() - 1:balanced(src, tv.end() - 1)][1:-1])
        bl = re.search(r"impl\s*<\s*T\s*:\s*Sized\s*>\s*ValueSize\s+for\s+T\s*\{", src)
        if not bl:
            raise Err("blanket impl ValueSize for T: Sized not found")
        sms = methods_of(src[bl.end() - 1:balanced(src, bl.end() - 1)][1:-1])
        mm = re.search(r"impl\s*<[^>]*>\s*MemSize\s+for\s+T\s*\{", src)
        if not mm:
            raise Err("blanket impl MemSize not found")
        mms = methods_of(src[mm.end() - 1:balanced(src, mm.end() - 1)][1:-1])
        unsized_vs = []
        for m in re.finditer(r"\bimpl\s*(<[^{]*?>)?\s*ValueSize\s+for\s+([^{]+?)\s*\{", src):
            tgt = "".join(m.group(2).split())
            if tgt == "T":
                continue
            blk = src[m.end() - 1:balanced(src, m.end() - 1)]
            unsized_vs.append((tgt, normalise_body(methods_of(blk[1:-1]).get("value_size", "{missing}"))))
        # the flat iterator must not call itself
        fi = re.search(r"Iterator\s+for\s+SizedArrayFlatIterator[^{]*\{", src)
        if not fi:
            raise Err("SizedArrayFlatIterator's Iterator impl not found")
        fblock = src[fi.end() - 1:balanced(src, fi.end() - 1)]
        fnext = methods_of(fblock[1:-1]).get("next", "")
        flat_loops = ("self.next()" not in "".join(fnext.split())) and ("loop" in fnext)
        flat_norm = hashlib.sha1("".join(fnext.split()).encode()).hexdigest()[:8]
    except Err as e:
        print(f"memdecls.py: {e}")
        return 1
    L = ["import LruMem.Model.MemDecl",
         "/-! GENERATED by /verif/tools/memdecls.py from /repo/src/mem_size.rs — do not edit; regenerated on every check run. -/",
         "namespace LruMem.GeneratedMem", "open LruMem.MemDecl", ""]
    L.append("def impls : List Impl := [")
    def opt(x):
        return "none" if x is None else f"(some {x})"
    L.append(",\n".join(f"  {{ target := .{t}, heap := {h}, sumIter := {opt(si)}, sumExact := {opt(se)} }}" for (t, h, si, se) in sorted(rows)))
    L.append("]")
    L.append("")
    L.append(f"/-- bodies of `basic_mem_size!` (heap_size, heap_size_sum_iter, heap_size_sum_exact_size_iter) -/")
    L.append(f"def basicBodies : List Body := [{', '.join(basic)}]")
    L.append(f"/-- number of types the macro is invoked for: {', '.join(basic_types)} -/")
    L.append(f"def basicCount : Nat := {len(basic_types)}")
    L.append(f"def basicHasStrLikes : Bool := {'true' if all(x in basic_types for x in ('str', 'CStr', 'OsStr')) else 'false'}")
    L.append(f"/-- the tuple macro has the expected shape (component-wise sums, each bulk helper delegating to the component type's helper of the same kind on the projected iterator) -/")
    L.append(f"def tupleMacroOk : Bool := {'true' if tuple_ok else 'false'}")
    L.append(f"def tupleArities : List Nat := [{', '.join(map(str, arities))}]")
    L.append("")
    L.append("def heapDefaults : List Body := [" + ", ".join(normalise_body(hms.get(k, "{missing}")) for k in ("heap_size_sum_iter", "heap_size_sum_exact_size_iter")) + "]")
    L.append("def valueDefaults : List Body := [" + ", ".join(normalise_body(vms.get(k, "{missing}")) for k in ("value_size_sum_iter", "value_size_sum_exact_size_iter")) + "]")
    L.append("def sizedValue : List Body := [" + ", ".join(normalise_body(sms.get(k, "{missing}")) for k in ("value_size", "value_size_sum_iter", "value_size_sum_exact_size_iter")) + "]")
    L.append("def memSizeBody : Body := " + normalise_body(mms.get("mem_size", "{missing}")))
    L.append("/-- `ValueSize` impls of unsized types: " + ", ".join(sorted(t for t, _ in unsized_vs)) + " -/")
    L.append("def unsizedValue : List Body := [" + ", ".join(b for _, b in sorted(unsized_vs)) + "]")
    L.append(f"def unsizedValueCount : Nat := {len(unsized_vs)}")
    L.append(f"/-- `SizedArrayFlatIterator::next` is a loop that never calls itself -/")
    L.append(f"def flatNextLoops : Bool := {'true' if flat_loops else 'false'}")
    L.append("")
    L.append("end LruMem.GeneratedMem")
    text = "\n".join(L) + "\n"
    old = open(out_path).read() if os.path.exists(out_path) else None
    if old != text:
        open(out_path, "w").write(text)
    return 0


if __name__ == "__main__":
    sys.exit(main())
