"""C08 / C09: size-estimation model vs the real HeapSize/ValueSize/MemSize impls and the allocator."""
import os, re, json, time, subprocess
import concurrent.futures as cf
import checklib as L

FIELDS = {
    "C08": {"heap", "val", "mem", "hsi", "hse", "vsi", "vse"},
    "C09": {"heap", "alloc"},
}


def run_shard(ctx, idx, rounds):
    prefix = os.path.join(ctx.work, f"mem_{idx}")
    rc, out = L.run([ctx.harness, "--family", "memsize", "--seed", str(ctx.seed * 31 + idx), "--seqs", str(rounds), "--out", prefix], timeout=3000)
    res = {"prefix": prefix, "rc": rc, "out": out[-2000:]}
    if rc != 0:
        return res
    with open(prefix + ".ops") as fi, open(prefix + ".pred", "w") as fo:
        subprocess.run([ctx.driver], stdin=fi, stdout=fo, stderr=subprocess.PIPE)
    res["same"] = subprocess.run(["cmp", "-s", prefix + ".obs", prefix + ".pred"]).returncode == 0
    return res


def disagreements(ctx, res):
    out = []
    ops = open(res["prefix"] + ".ops").read().splitlines()
    obs = open(res["prefix"] + ".obs").read().splitlines()
    pred = open(res["prefix"] + ".pred").read().splitlines()
    for i in range(min(len(obs), len(pred))):
        if obs[i] != pred[i]:
            a, b = L.parse_fields(obs[i]), L.parse_fields(pred[i])
            fields = {k for k in set(a) | set(b) if a.get(k) != b.get(k)}
            if "user" in ops[i]:
                # what a user-defined type reports is its author's business; the allocator statement (C09) is about
                # std's owned buffers
                fields.discard("alloc")
            if fields & FIELDS[ctx.prop] or not b:
                out.append({"line": i, "fields": sorted(fields), "ops": ops[i], "obs": obs[i], "pred": pred[i]})
    return out


def monitor_lines(res, prop):
    out = []
    try:
        for l in open(res["prefix"] + ".mon"):
            m = re.match(r"FAIL (\S+) type=(.*?) :: (.*)", l)
            if m and m.group(1) == prop:
                out.append({"type": m.group(2), "msg": m.group(3)})
    except FileNotFoundError:
        pass
    return out


def run(ctx, replay):
    obligations, discharged, axioms, problems = L.lean_build_and_audit(ctx)
    ok, out = L.build_harness(ctx)
    if not ok:
        path = L.write_replay(ctx, "build", "", [], "the harness no longer builds against /repo:\n" + out[-3000:])
        L.write_evidence(ctx, {"obligations": max(obligations, 1), "discharged": discharged, "checker_cmd": "lake build", "trusted_base": L.TRUSTED_BASE}, 1)
        print(f"VIOLATION property={ctx.prop} replay={path} no-failing-input-found")
        return 1
    violations = []
    notes = []
    if replay:
        body = json.load(open(replay))
        # a replay is a type/value descriptor line: re-run the whole family (values are regenerated
        # from the recorded seed) and report for that type
        ctx.seed = body.get("seed", ctx.seed)
    rounds = 25 if ctx.tier == "quick" else 400
    shards = L.NCPU
    with cf.ThreadPoolExecutor(max_workers=L.NCPU) as ex:
        results = list(ex.map(lambda i: run_shard(ctx, i, rounds), range(shards)))
    crashed = [r for r in results if r["rc"] != 0]
    good = [r for r in results if r["rc"] == 0]
    if crashed:
        path = L.write_replay(ctx, "crash", "", [], "the size-estimation harness died (panic/stack overflow/abort):\n" + crashed[0]["out"],
                              {"seed": ctx.seed})
        violations.append((path, ""))
    mons = [m for r in good for m in monitor_lines(r, ctx.prop)]
    dis = [d for r in good if not r.get("same", True) for d in disagreements(ctx, r)]
    stack_note = None
    if ctx.prop == "C08":
        # totality on the real stack: debug build (no tail-call optimisation), 256 KiB thread, subprocess
        h = os.path.join(ctx.root, "harness")
        rc, out = L.run(["cargo", "build", "--offline"] + ([] if ctx.hooks else ["--no-default-features"]), cwd=h, timeout=1800)
        if rc != 0:
            notes.append("debug build of the harness failed; stack probe skipped:\n" + out[-800:])
        else:
            n = 5_000_000 if ctx.tier == "quick" else 30_000_000
            p = subprocess.run([os.path.join(h, "target", "debug", "lru-verif-harness"), "--family", "stack", "--n", str(n)],
                               stdout=subprocess.PIPE, stderr=subprocess.STDOUT, text=True)
            stack_note = f"stack probe n={n}: rc={p.returncode} {p.stdout.strip()[-200:]}"
            notes.append(stack_note)
            if p.returncode != 0:
                path = L.write_replay(ctx, "stack", "", [], f"size estimation of {n} elements on a 256 KiB stack in a debug build did not finish: "
                                      f"exit status {p.returncode} (negative = killed by signal, e.g. -11 SIGSEGV / -6 SIGABRT on stack overflow).\n"
                                      f"Reproduce: cd /verif/harness && cargo build --offline && ./target/debug/lru-verif-harness --family stack --n {n}",
                                      {"n": n, "output": p.stdout[-1500:]})
                violations.append((path, ""))
    if ctx.prop == "C09" and not mons:
        # search for a failing input among the disagreements: for HashMap / HashSet the model's heapSize *is*
        # the documented floor (capacity x entry size + the elements' own heap_size, `C09_hash_bounds`), so an
        # implementation value below it contradicts the property itself on that very value
        for d in dis:
            a, b = L.parse_fields(d["obs"]), L.parse_fields(d["pred"])
            try:
                ih, mh = int(a.get("heap", "x")), int(b.get("heap", "x"))
            except ValueError:
                continue
            if ("hset" in d["ops"] or "hmap" in d["ops"]) and ih < mh:
                mons.append({"type": d["ops"][:200], "msg": f"heap_size {ih} is below capacity x entry size + the elements' own heap_size = {mh} "
                             f"for the value `{d['ops'][:400]}` (allocator holds {a.get('alloc')} bytes)"})
                break
    if mons and not violations:
        m = mons[0]
        path = L.write_replay(ctx, "monitor", "", [], f"type {m['type']}: {m['msg']}", {"seed": ctx.seed, "type": m["type"]})
        violations.append((path, ""))
    if dis and not violations:
        d = dis[0]
        path = L.write_replay(ctx, "correspondence", "", [d["ops"]],
                              f"the Lean size-estimation model and the implementation disagree in {d['fields']} for `{d['ops'][:300]}`; "
                              "no input on which the implementation contradicts the property itself was found by the monitors",
                              {"implementation": d["obs"], "model": d["pred"], "seed": ctx.seed,
                               "broken": f"correspondence fields {d['fields']} (theorems LruMem.Props.{ctx.prop})"})
        violations.append((path, " no-failing-input-found"))
    if problems and not violations:
        path = L.write_replay(ctx, "proof", "", [], "proof obligations no longer check:\n" + "\n".join(problems))
        violations.append((path, " no-failing-input-found"))
    values = helper_lines = spare = 0
    types = {}
    samples = []
    for r in good:
        try:
            s = json.load(open(r["prefix"] + ".stats"))
        except Exception:
            continue
        values += s["values"]
        helper_lines += s["helper_lines"]
        spare += s["with_buffers"]
        for k, v in s["types"].items():
            types[k] = types.get(k, 0) + v
        samples += s["samples"][:1]
    distinct = len(types)
    cov = {
        "obligations": max(obligations, 1), "discharged": discharged,
        "checker_cmd": f"cd /verif/lean && lake build LruMem.Props.{ctx.prop} && lake env lean <audit>",
        "trusted_base": ["Lean 4.33.0 kernel; standard axioms only",
                         "the deep embedding LruMem/Model/MemSize.lean (per-constructor helpers transcribed from mem_size.rs); size_of values are inputs",
                         "A-iter: a Fn() -> Iter yields the same finite sequence on each call",
                         "allocBytes is a model of std's allocation behaviour, validated against a counting global allocator each run",
                         "harness/src/memsize.rs (descriptors, random construction scripts), lrudriver"],
        "evaluations": values + helper_lines,
        "distinct_nontrivial": distinct,
        "rule": "values of ~90 concrete Rust types built by random with_capacity/push/extend/reserve/shrink/truncate scripts at every nesting level, plus bulk-helper calls over lists of them through plain/filtered/mapped/chained/reversed iterators; distinct_nontrivial counts distinct concrete types exercised (each with many values)",
        "samples": (samples[:4] or ["(none)"]) + [f"{t}: axioms {a}" for t, a in list(axioms.items())[:6]],
        "traces_validated_against_impl": values + helper_lines,
        "values": values, "helper_calls": helper_lines, "values_holding_buffers": spare,
        "types": types, "disagreements_checked": len(dis), "notes": notes + ctx.notes,
    }
    L.write_evidence(ctx, cov, len(violations))
    print(f"[{ctx.prop}] {ctx.tier}: {obligations} theorems ({discharged} audited), {values} values + {helper_lines} helper calls over {distinct} types compared"
          + (f", {stack_note}" if stack_note else "") + f", {time.time()-ctx.t0:.1f}s")
    for path, suffix in violations[:1]:
        print(f"VIOLATION property={ctx.prop} replay={path}{suffix}")
    return 1 if violations else 0
