#!/usr/bin/env python3
"""Regenerates /verif/MANIFEST.json from the table below (run after claiming a property)."""
import json, os, subprocess
ROOT = os.path.dirname(os.path.dirname(os.path.abspath(__file__)))

PARTIAL = {
    "C06": "drops that themselves panic are outside the model",
    "C07": "machine-level memory safety (reads of freed bytes, aliasing-model UB, hashbrown's own unsafe code) is sampled by the hook walk / Miri, not proved",
    "C08": "the real stack is sampled (debug build, 256 KiB thread); size_of is a parameter of the model",
    "C09": "the real allocator's behaviour (std's request sizes) is a validated model, not verified",
    "C16": "panics in Drop / BuildHasher::clone, aborts and hashbrown's unwinding are not modelled; try_insert/mutate on the two stale states of DESIGN §13.6 are outside the history theorem",
    "C17": "as C06/C07 for the machine level",
    "C18": "rustc's trait solver and borrow checker are trusted; the declaration model is regenerated from source",
    "C19": "a write that restores the old value or a race inside hashbrown::find is visible only to Miri",
}

TECH = {
    "default": "Lean 4 theorems over a Level-A functional model (induction over histories, invariant InvA, all oracles) + differential correspondence run (Rust harness vs native Lean driver) with implementation-side monitors as failing-input search",
    "C08": "Lean 4 theorems over a deep embedding of the size-estimation impls (induction on types), tied to the code twice: the impl table is regenerated from /repo/src/mem_size.rs by tools/memdecls.py on every run and proved (decide + per-row semantic theorems) to be the model's, and a differential run of ~145 concrete Rust types against the model",
    "C09": "Lean 4 theorem heapSize = allocBytes by induction on types; impl table regenerated from /repo/src/mem_size.rs on every run (tools/memdecls.py) and proved to be the model's + counting global allocator differential run",
    "C07": "Lean 4 theorems over the Level-B pointer model (representation invariant Rep, refinement of every operation to Level A, induction over histories incl. iterators, drains, clones) + differential correspondence run with a pointer-validating hook walk of the real heap; thorough tier adds Miri as a search aid",
    "C16": "Lean 4 theorems over an explicit panic model at Level A (every callback point) and Level B (pointer structure at every abort point, reallocation guard, refinement from weak states, induction over histories with panics anywhere) + systematic panic injection in the differential run; thorough tier adds Miri as a search aid",
    "C19": "Lean 4 theorems: every &self operation returns the same Level-A value and the same Level-B pointer state + hook fingerprint before/after every &self call and concurrent reader threads in the differential run; thorough tier adds Miri (data-race detector) as a search aid",
    "C18": "Lean 4 `decide` over the complete auto-trait table regenerated from /repo/src by tools/decls.py + rustc probe programs as the implementation side",
}

CLAIMED = json.load(open(os.path.join(ROOT, "tools", "claimed.json")))

props = [json.loads(l) for l in open(os.path.join(ROOT, "properties.jsonl"))]
checks = []
na = []
for p in props:
    i = p["id"]
    if i in CLAIMED:
        note = "Trusted: Lean kernel (axioms propext/Classical.choice/Quot.sound only, audited per theorem each run); the hand-written model is tied to the code only by the correspondence run; hashbrown is modelled as an exact finite map with oracle-resolved slot choices (A-hashbrown); sizes do not overflow usize (A-sizes)."
        if i in PARTIAL:
            note += " PARTIAL: " + PARTIAL[i] + "."
        checks.append({
            "property_id": i,
            "quick_cmd": f"./check {i} --tier quick",
            "thorough_cmd": f"./check {i} --tier thorough",
            "evidence_file": f"evidence/{i}.json",
            "replay_cmd_template": f"./check {i} --replay {{path}}",
            "engine": "lean4-proof+correspondence",
            "level_claimed": {
                "category": "proof",
                "text": CLAIMED[i],
                "design_ref": f"DESIGN.md §6 {i}",
            },
            "level_note": note,
            "technique": TECH.get(i, TECH["default"]),
        })
    else:
        na.append({"property_id": i, "reason": "check under construction (theorem + tie not finished yet); see DESIGN.md §6 " + i})

hook_commits = subprocess.run(["git", "-C", "/repo", "log", "--format=%H", "--grep=verif-hooks"], capture_output=True, text=True).stdout.split()
m = {
    "version": 1,
    "setup_cmd": "./setup.sh",
    "hooks": {
        "guard": "verif-hooks (cargo feature of lru-mem)",
        "enable": "the harness crate /verif/harness depends on lru-mem by path with its default feature `hooks` = lru-mem/verif-hooks; falls back to --no-default-features if the hook no longer compiles",
        "baseline_off_cmd": "cd /repo && cargo test --workspace --no-fail-fast --offline",
        "source_commits": hook_commits,
        "add_only": True,
    },
    "engines": [
        {"name": "lean4-proof+correspondence", "path": "lean/ harness/ tools/checklib.py check",
         "serves_properties": sorted(CLAIMED.keys()),
         "kind_free_text": "Lean 4 machine-checked theorems about hand-written executable models; Rust differential harness ties the models to /repo on every run"}
    ],
    "checks": checks,
    "not_applicable": na,
    "notes": "Known findings / fixed defects: known_findings.json. Design: DESIGN.md.",
}
json.dump(m, open(os.path.join(ROOT, "MANIFEST.json"), "w"), indent=1)
print("claimed:", sorted(CLAIMED.keys()))
