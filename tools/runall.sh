#!/bin/sh
# Runs every claimed check (quick tier by default) against /repo as it is and prints one line per check.
cd "$(dirname "$0")/.."
tier=${1:-quick}
for i in 01 02 03 04 05 06 07 08 09 10 11 12 13 14 15 16 17 18 19 20; do
  s=$(date +%s); ./check C$i --tier $tier > work/run_C$i.$tier.log 2>&1; rc=$?; e=$(date +%s)
  echo "C$i rc=$rc $((e-s))s $(grep -c '^VIOLATION' work/run_C$i.$tier.log) $(tail -1 work/run_C$i.$tier.log | cut -c1-160)"
done
