#!/usr/bin/env python3
"""Writes seeded/MATRIX.md from the meta.json files: which check caught which seeded change, and how."""
import json, glob, os, re
ROOT = os.path.dirname(os.path.dirname(os.path.abspath(__file__)))
rows = []
for p in sorted(glob.glob(os.path.join(ROOT, "seeded", "*", "meta.json"))):
    m = json.load(open(p))
    ch = m.get("checks", {})
    own = ch.get(m["property"], {})
    v = own.get("violation") or ""
    kind = (own.get("replay") or {}).get("kind") or ("-" if not v else "?")
    how = "MISSED" if not v else ("broken correspondence, no failing input" if "no-failing-input-found" in v else f"failing input ({kind})")
    others = sorted(c for c, x in ch.items() if x.get("violation") and c != m["property"])
    ops = (own.get("replay") or {}).get("ops") or []
    rows.append((m["name"], m["property"], how, others, len(ops)))
with open(os.path.join(ROOT, "seeded", "MATRIX.md"), "w") as f:
    f.write("# Seeded changes and the checks that catch them\n\n"
            "Each row is a change to /repo written by a fresh sub-agent that saw only the property text; it compiles, passes the 134 tests\n"
            "(and the doc tests), and fails its own demonstration (`seed_demo.rs`). `own check` = result of `./check <property> --tier quick`\n"
            "with the patch applied; `also flagged by` = other checks that were run against it and raised a violation (not every check was\n"
            "run against every change). Regenerate with `python3 tools/seedmatrix.py`.\n\n"
            "| change | property | own check | minimised replay (ops) | also flagged by |\n|---|---|---|---|---|\n")
    for name, prop, how, others, n in rows:
        f.write(f"| {name} | {prop} | {how} | {n if n else '-'} | {' '.join(others) if others else '-'} |\n")
    missed = [r for r in rows if r[2] == "MISSED"]
    nfi = [r for r in rows if "no failing input" in r[2]]
    f.write(f"\n{len(rows)} changes; {len(rows) - len(missed) - len(nfi)} caught with a concrete failing input, {len(nfi)} as a broken correspondence only, {len(missed)} missed.\n")
print(len(rows), "rows")
