#!/usr/bin/env python3
"""Confirm a seeded change and run the checks against it.

usage: seedrun.py <scratch worktree: absolute path, or a name under /tmp/seed, e.g. C03> <name under /verif/seeded, e.g. C03-replace-order> [--checks C01,C02,...]

1. in the scratch worktree: the existing suite passes with the change, the demo fails with it and
   passes without it;
2. copies patch.diff + demo into /verif/seeded/<name>/;
3. applies the patch to /repo, runs the checks (default: the property's own check, then all others),
   reverts /repo;
4. writes meta.json.
"""
import sys, os, subprocess, json, shutil, re, time

ROOT = "/verif"


def sh(cmd, cwd=None, timeout=3600):
    p = subprocess.run(cmd, cwd=cwd, shell=True, stdout=subprocess.PIPE, stderr=subprocess.STDOUT, text=True, timeout=timeout,
                       env=dict(os.environ, CARGO_NET_OFFLINE="true"))
    return p.returncode, p.stdout


def recheck(names, checks):
    """Re-run checks against already confirmed seeded changes (no scratch worktree needed)."""
    claimed = sorted(json.load(open(os.path.join(ROOT, "tools", "claimed.json"))).keys())
    for name in names:
        out = os.path.join(ROOT, "seeded", name)
        meta = json.load(open(os.path.join(out, "meta.json")))
        prop = meta["property"]
        rc, o = sh("git -C /repo status --short")
        if o.strip():
            print("refusing: /repo is dirty:", o)
            return 2
        rc, o = sh(f"git -C /repo apply {out}/patch.diff")
        if rc != 0:
            print(f"[{name}] patch does not apply to /repo:", o)
            continue
        order = [prop] + [c for c in (checks or []) if c != prop] if checks != ["all"] else [prop] + [c for c in claimed if c != prop]
        meta.setdefault("checks", {})
        try:
            for c in order:
                t = time.time()
                rc, o = sh(f"./check {c} --tier quick", cwd=ROOT, timeout=1800)
                viol = [l for l in o.splitlines() if l.startswith("VIOLATION")]
                detail = None
                if viol:
                    m = re.search(r"replay=(\S+)", viol[0])
                    if m and os.path.exists(m.group(1)):
                        body = json.load(open(m.group(1)))
                        detail = {"kind": body.get("kind"), "ops": body.get("ops", [])[:12], "detail": str(body.get("detail"))[:400]}
                meta["checks"][c] = {"rc": rc, "violation": viol[0] if viol else None, "replay": detail, "secs": round(time.time() - t, 1)}
                print(f"[{name}] {c}: rc={rc} {viol[0] if viol else ''}", flush=True)
        finally:
            sh("git -C /repo checkout -- .")
            sh(f"python3 {ROOT}/tools/decls.py /repo/src {ROOT}/lean/LruMem/Generated/Decls.lean; python3 {ROOT}/tools/memdecls.py /repo/src {ROOT}/lean/LruMem/Generated/MemDecls.lean")
            for f in os.listdir(os.path.join(ROOT, "replays")):
                os.remove(os.path.join(ROOT, "replays", f))
        meta["rechecked_at_verif_commit"] = sh("git -C /verif rev-parse --short HEAD")[1].strip()
        json.dump(meta, open(os.path.join(out, "meta.json"), "w"), indent=1)
    return 0


def main():
    if sys.argv[1] == "--recheck":
        # seedrun.py --recheck <name|all> [--checks C01,C02|all]
        names = sorted(d for d in os.listdir(os.path.join(ROOT, "seeded")) if os.path.exists(os.path.join(ROOT, "seeded", d, "meta.json"))) if sys.argv[2] == "all" else sys.argv[2].split(",")
        checks = sys.argv[sys.argv.index("--checks") + 1].split(",") if "--checks" in sys.argv else []
        return recheck(names, checks)
    wt_name, name = sys.argv[1], sys.argv[2]
    checks = None
    if "--checks" in sys.argv:
        checks = sys.argv[sys.argv.index("--checks") + 1].split(",")
    wt = wt_name if wt_name.startswith("/") else f"/tmp/seed/{wt_name}"
    prop = re.match(r"(C\d+)", name).group(1)
    out = os.path.join(ROOT, "seeded", name)
    os.makedirs(out, exist_ok=True)
    meta = {"property": prop, "name": name}
    # 1. confirm
    rc, o = sh("git diff -- src > patch.diff; git diff --stat -- src | tail -1", cwd=wt)
    meta["diffstat"] = o.strip()
    rc1, o1 = sh("cargo test --offline --no-fail-fast --lib --test capacity-management --test many-accesses --test memory-leak 2>&1", cwd=wt)
    rc2, o2 = sh("cargo test --offline --no-fail-fast --doc 2>&1", cwd=wt)
    o = o1 + o2
    results = re.findall(r"test result: (\w+)\. (\d+) passed; (\d+) failed", o)
    meta["suite_with_change"] = {"passed": sum(int(r[1]) for r in results), "failed": sum(int(r[2]) for r in results)}
    rc_with, o_with = sh("cargo test --offline --test seed_demo 2>&1", cwd=wt)
    inverted = "--demo-inverted" in sys.argv   # compile-time contracts: the demo must be *rejected* by the compiler on a correct crate
    meta["demo_kind"] = "must not compile on a correct crate" if inverted else "test fails with the change"
    meta["demo_with_change"] = ("fails" if rc_with != 0 else "PASSES (unexpected)") if not inverted else ("compiles and runs" if rc_with == 0 else "REJECTED (unexpected)")
    meta["demo_output_with_change"] = o_with[-1500:]
    sh("git apply -R patch.diff", cwd=wt)
    rc_without, o_without = sh("cargo test --offline --test seed_demo 2>&1", cwd=wt)
    sh("git apply patch.diff", cwd=wt)
    meta["demo_without_change"] = ("passes" if rc_without == 0 else "FAILS (unexpected)") if not inverted else ("rejected by the compiler" if rc_without != 0 and "error[E" in o_without else "ACCEPTED (unexpected)")
    demo_ok = (rc_with != 0 and rc_without == 0) if not inverted else (rc_with == 0 and rc_without != 0 and "error[E" in o_without)
    confirmed = meta["suite_with_change"]["failed"] == 0 and meta["suite_with_change"]["passed"] >= 134 and demo_ok
    meta["confirmed"] = confirmed
    shutil.copy(os.path.join(wt, "patch.diff"), os.path.join(out, "patch.diff"))
    shutil.copy(os.path.join(wt, "tests", "seed_demo.rs"), os.path.join(out, "seed_demo.rs"))
    print(f"[{name}] confirmed={confirmed} suite={meta['suite_with_change']} demo_with={meta['demo_with_change']} demo_without={meta['demo_without_change']}")
    if not confirmed:
        json.dump(meta, open(os.path.join(out, "meta.json"), "w"), indent=1)
        return 1
    # 3. run checks against it
    rc, o = sh(f"git -C /repo status --short")
    if o.strip():
        print("refusing: /repo is dirty:", o)
        return 2
    rc, o = sh(f"git -C /repo apply {out}/patch.diff")
    if rc != 0:
        print("patch does not apply to /repo:", o)
        return 2
    claimed = sorted(json.load(open(os.path.join(ROOT, "tools", "claimed.json"))).keys())
    order = [prop] + [c for c in (checks or claimed) if c != prop] if prop in claimed or checks else (checks or claimed)
    meta["checks"] = {}
    try:
        for c in order:
            t = time.time()
            rc, o = sh(f"./check {c} --tier quick", cwd=ROOT, timeout=1800)
            viol = [l for l in o.splitlines() if l.startswith("VIOLATION")]
            replay = None
            detail = None
            if viol:
                m = re.search(r"replay=(\S+)", viol[0])
                if m and os.path.exists(m.group(1)):
                    body = json.load(open(m.group(1)))
                    detail = {"kind": body.get("kind"), "ops": body.get("ops", [])[:12], "detail": str(body.get("detail"))[:400]}
            meta["checks"][c] = {"rc": rc, "violation": viol[0] if viol else None, "replay": detail, "secs": round(time.time() - t, 1)}
            print(f"   {c}: rc={rc} {viol[0] if viol else ''}")
    finally:
        sh("git -C /repo checkout -- .")
        sh(f"python3 {ROOT}/tools/decls.py /repo/src {ROOT}/lean/LruMem/Generated/Decls.lean; python3 {ROOT}/tools/memdecls.py /repo/src {ROOT}/lean/LruMem/Generated/MemDecls.lean")
        # replays written while the seed was applied are not evidence about the real tree
        for f in os.listdir(os.path.join(ROOT, "replays")):
            os.remove(os.path.join(ROOT, "replays", f))
    json.dump(meta, open(os.path.join(out, "meta.json"), "w"), indent=1)
    return 0


if __name__ == "__main__":
    sys.exit(main())
