"""Checks with their own implementation side: C18 (rustc probes), C08/C09 (size estimation)."""
import os, re, json, time, subprocess, glob, hashlib
import concurrent.futures as cf
import checklib as L

# ------------------------------------------------------------------------------------------ C18

PRELUDE = """#![allow(unused)]
use lru_mem::LruCache;
use std::rc::Rc;
use std::cell::Cell;
fn is_send<T: Send>() {}
fn is_sync<T: Sync>() {}
struct NotSendHasher(Rc<u32>);
struct NotSyncHasher(Cell<u32>);
fn mk() -> LruCache<String, String> {
    let mut c = LruCache::new(1000);
    c.insert("a".to_owned(), "b".to_owned()).unwrap();
    c
}
"""

# witness types per (send, sync)
WITNESS = {(True, True): "u32", (True, False): "Cell<u32>", (False, False): "Rc<u32>"}
HASHER_WITNESS = {(True, True): "lru_mem_default", (True, False): "NotSyncHasher", (False, False): "NotSendHasher"}


def ty_for(k, v, s):
    sty = HASHER_WITNESS[s]
    if sty == "lru_mem_default":
        return f"LruCache<{WITNESS[k]}, {WITNESS[v]}>"
    return f"LruCache<{WITNESS[k]}, {WITNESS[v]}, {sty}>"


def probes():
    """(name, expectation, source). expectation: 'ok' or an error code that must be reported."""
    P = []
    P.append(("send_generic", "ok", "fn f<K: Send, V: Send, S: Send>() { is_send::<LruCache<K, V, S>>() }\nfn main() {}"))
    P.append(("sync_generic", "ok", "fn f<K: Sync, V: Sync, S: Sync>() { is_sync::<LruCache<K, V, S>>() }\nfn main() {}"))
    for missing in "KVS":
        gen = ", ".join(f"{x}: Send" if x != missing else x for x in "KVS")
        P.append((f"send_generic_missing_{missing}", "E0277", f"fn f<{gen}>() {{ is_send::<LruCache<K, V, S>>() }}\nfn main() {{}}"))
        gen = ", ".join(f"{x}: Sync" if x != missing else x for x in "KVS")
        P.append((f"sync_generic_missing_{missing}", "E0277", f"fn f<{gen}>() {{ is_sync::<LruCache<K, V, S>>() }}\nfn main() {{}}"))
    kinds = [(True, True), (True, False), (False, False)]
    for pos in range(3):
        for w in kinds:
            a = [(True, True)] * 3
            a[pos] = w
            ty = ty_for(*a)
            send_ok = all(x[0] for x in a)
            sync_ok = all(x[1] for x in a)
            nm = "KVS"[pos] + ("_plain" if w == (True, True) else "_sendonly" if w == (True, False) else "_neither")
            P.append((f"send_{nm}", "ok" if send_ok else "E0277", f"fn main() {{ is_send::<{ty}>() }}"))
            P.append((f"sync_{nm}", "ok" if sync_ok else "E0277", f"fn main() {{ is_sync::<{ty}>() }}"))
    # borrowing: (api expression, error when mutating while the result is alive)
    apis = [
        ("get", 'c.get("a")', "E0499"), ("get_entry", 'c.get_entry("a")', "E0499"), ("get_lru", "c.get_lru()", "E0499"),
        ("peek", 'c.peek("a")', "E0502"), ("peek_entry", 'c.peek_entry("a")', "E0502"), ("peek_lru", "c.peek_lru()", "E0502"),
        ("peek_mru", "c.peek_mru()", "E0502"), ("iter", "c.iter()", "E0502"), ("keys", "c.keys()", "E0502"),
        ("values", "c.values()", "E0502"), ("drain", "c.drain()", "E0499"), ("hasher", "c.hasher()", "E0502"),
    ]
    for name, expr, code in apis:
        use = "let _ = format!(\"{:?}\", r.is_some());" if name in ("get", "get_entry", "get_lru", "peek", "peek_entry", "peek_lru", "peek_mru") else \
              ("let _ = r as *const _;" if name == "hasher" else "let _ = r.count();")
        P.append((f"mutate_while_{name}", code, f"fn main() {{ let mut c = mk(); let r = {expr}; c.clear(); {use} }}"))
        P.append((f"drop_while_{name}", "E0505", f"fn main() {{ let mut c = mk(); let r = {expr}; drop(c); {use} }}"))
        P.append((f"ok_after_{name}", "ok", f"fn main() {{ let mut c = mk(); {{ let r = {expr}; {use} }} c.clear(); }}"))
    P.append(("escape_static", "E0515", 'fn f() -> &\'static String { let c = mk(); c.peek("a").unwrap() }\nfn main() {}'))
    P.append(("escape_iter", "E0515", "fn f() -> lru_mem::Iter<'static, String, String> { let c = mk(); c.iter() }\nfn main() {}"))
    P.append(("smuggle_mutate", "E0521", 'fn main() { let mut c = mk(); let mut out: Option<&mut String> = None; let _ = c.mutate("a", |v| { out = Some(v); }); }'))
    P.append(("smuggle_retain", "E0521", 'fn main() { let mut c = mk(); let mut keep: Vec<&String> = Vec::new(); c.retain(|k, _| { keep.push(k); false }); let _ = keep.len(); }'))
    P.append(("smuggle_retain_value", "E0521", 'fn main() { let mut c = mk(); let mut keep: Option<&String> = None; c.retain(|_, v| { keep = Some(v); true }); c.clear(); let _ = keep.is_some(); }'))
    P.append(("retain_ok", "ok", 'fn main() { let mut c = mk(); let mut n = 0; c.retain(|k, v| { n += k.len() + v.len(); n % 2 == 0 }); }'))
    P.append(("move_while_iter", "E0505", "fn main() { let c = mk(); let it = c.iter(); let d = c; let _ = it.count(); }"))
    P.append(("insert_while_ref", "E0499", 'fn main() { let mut c = mk(); let r = c.get("a"); c.insert("x".to_owned(), "y".to_owned()).unwrap(); let _ = r.is_some(); }'))
    P.append(("thread_send_ok", "ok", "fn main() { let c = mk(); std::thread::spawn(move || { let _ = c.len(); }).join().unwrap(); }"))
    P.append(("thread_share_ok", "ok", 'fn main() { let c = mk(); std::thread::scope(|s| { s.spawn(|| { let _ = c.peek("a"); }); s.spawn(|| { let _ = c.len(); }); }); }'))
    # the iterator types: never more thread-safe than what they give access to
    views = [("Iter", "lru_mem::Iter<'static, {k}, {v}>", "shared"), ("Keys", "lru_mem::Keys<'static, {k}, {v}>", "shared"),
             ("Values", "lru_mem::Values<'static, {k}, {v}>", "shared"),
             ("Drain", "lru_mem::Drain<'static, {k}, {v}, {s}>", "own"), ("IntoIter", "lru_mem::IntoIter<{k}, {v}, {s}>", "own"),
             ("IntoKeys", "lru_mem::IntoKeys<{k}, {v}, {s}>", "own"), ("IntoValues", "lru_mem::IntoValues<{k}, {v}, {s}>", "own")]
    for vname, tmpl, mode in views:
        for pos in range(3):
            if mode == "shared" and pos == 2:
                continue
            for w in [(True, False), (False, False)]:
                a = [(True, True)] * 3
                a[pos] = w
                sty = {"lru_mem_default": "std::collections::hash_map::RandomState"}.get(HASHER_WITNESS[a[2]], HASHER_WITNESS[a[2]])
                ty = tmpl.format(k=WITNESS[a[0]], v=WITNESS[a[1]], s=sty)
                nm = "KVS"[pos] + ("_sendonly" if w == (True, False) else "_neither")
                # shared views need K, V: Sync for either trait; the others follow the cache
                send_must_fail = (not w[1]) if mode == "shared" else (not w[0])
                sync_must_fail = not w[1]
                if send_must_fail:
                    P.append((f"view_{vname}_send_{nm}", "E0277", f"fn main() {{ is_send::<{ty}>() }}"))
                if sync_must_fail:
                    P.append((f"view_{vname}_sync_{nm}", "E0277", f"fn main() {{ is_sync::<{ty}>() }}"))
    P.append(("thread_send_rc", "E0277", "fn main() { let c: LruCache<u32, Rc<u32>> = LruCache::new(10); std::thread::spawn(move || { let _ = c.len(); }); }"))
    return P


def find_rlib(ctx):
    deps = os.path.join(ctx.root, "harness", "target", "release", "deps")
    c = sorted(glob.glob(os.path.join(deps, "liblru_mem-*.rlib")), key=os.path.getmtime)
    return deps, (c[-1] if c else None)


def compile_probe(ctx, deps, rlib, name, src):
    d = os.path.join(ctx.work, "probes")
    os.makedirs(d, exist_ok=True)
    path = os.path.join(d, name + ".rs")
    open(path, "w").write(PRELUDE + src + "\n")
    cmd = ["rustc", "--edition", "2021", "--crate-type", "bin", "--emit=metadata", "-L", "dependency=" + deps,
           "--extern", "lru_mem=" + rlib, "--error-format=short", "-o", os.path.join(d, name + ".rmeta"), path]
    rc, out = L.run(cmd, timeout=300)
    codes = set(re.findall(r"error\[(E\d+)\]", out))
    return path, rc, codes, out


def run_c18(ctx, replay):
    obligations, discharged, axioms, problems = L.lean_build_and_audit(ctx)
    ok, out = L.build_harness(ctx)
    violations = []
    if not ok:
        path = L.write_replay(ctx, "build", "", [], "the harness crate (which provides the rlib for the probes) no longer builds:\n" + out[-3000:])
        print(f"VIOLATION property=C18 replay={path} no-failing-input-found")
        L.write_evidence(ctx, {"obligations": max(obligations, 1), "discharged": discharged, "checker_cmd": "lake build", "trusted_base": L.TRUSTED_BASE}, 1)
        return 1
    deps, rlib = find_rlib(ctx)
    P = probes()
    if replay:
        body = json.load(open(replay))
        P = [(body["probe"], body["expect"], body["source"])]
    results = []
    with cf.ThreadPoolExecutor(max_workers=L.NCPU) as ex:
        futs = {ex.submit(compile_probe, ctx, deps, rlib, n, s): (n, e, s) for (n, e, s) in P}
        for f, (n, e, s) in futs.items():
            path, rc, codes, out = f.result()
            good = (rc == 0) if e == "ok" else (rc != 0 and e in codes)
            results.append({"probe": n, "expect": e, "rc": rc, "codes": sorted(codes), "ok": good, "source": s, "out": out[-1200:]})
    bad = [r for r in results if not r["ok"]]
    for r in bad[:1]:
        what = ("compiles although it must be rejected with " + r["expect"]) if r["rc"] == 0 else \
               (f"is rejected ({', '.join(r['codes']) or 'error'}) although it must compile" if r["expect"] == "ok"
                else f"is rejected with {', '.join(r['codes'])} instead of {r['expect']}")
        path = L.write_replay(ctx, "probe", "", [], f"probe program `{r['probe']}` {what}",
                              {"probe": r["probe"], "expect": r["expect"], "source": r["source"], "rustc_output": r["out"]})
        # a different error code for a rejected program is a change of rustc diagnostics, not of the property
        if r["rc"] != 0 and r["expect"] != "ok":
            ctx.notes.append(f"probe {r['probe']}: rejected with {r['codes']} (expected {r['expect']}) — still rejected, not counted")
            continue
        violations.append((path, ""))
    if replay:
        for r in results:
            print(f"replay: probe {r['probe']}: rc={r['rc']} codes={r['codes']} expected {r['expect']}")
    if problems and not violations:
        # the regenerated table no longer satisfies a theorem: name it; the probes above are the search
        path = L.write_replay(ctx, "proof", "", [], "proof obligations over the regenerated declaration table no longer check:\n" + "\n".join(problems)[-4000:],
                              {"broken": "LruMem.Props.C18 over LruMem/Generated/Decls.lean"})
        violations.append((path, " no-failing-input-found"))
    names = [r["probe"] for r in results]
    cov = {
        "obligations": max(obligations, 1), "discharged": discharged,
        "checker_cmd": "python3 tools/decls.py /repo/src lean/LruMem/Generated/Decls.lean && cd lean && lake build LruMem.Props.C18 && lake env lean <audit>",
        "trusted_base": ["Lean 4.33.0 kernel; `decide` over the complete finite tables (64 auto-trait assignments, every API row)",
                         "translator tools/decls.py (regex-level parser of struct/impl/fn headers; unparseable input is an error)",
                         "the auto-trait and lifetime-elision rules as encoded in LruMem/Model/Decls.lean",
                         "rustc (trait solver, borrow checker) is the implementation side and is trusted"],
        "evaluations": len(results), "distinct_nontrivial": len(set(names)),
        "rule": "one rustc probe program per (parameter position × witness type × Send/Sync) and per (reference-returning API × mutate/drop/ok-after); all are distinct programs; non-trivial = every probe exercises a trait or borrow obligation of LruCache",
        "samples": [{"probe": r["probe"], "expect": r["expect"], "got": r["codes"] or "compiles", "source": r["source"]} for r in results[:4]]
                   + [f"{t}: axioms {a}" for t, a in list(axioms.items())[:8]],
        "programs": len(results), "disagreements_checked": len(bad),
        "traces_validated_against_impl": len(results),
        "exhaustive": True, "notes": ctx.notes,
    }
    L.write_evidence(ctx, cov, len(violations), ["rustc's checker is trusted", "the translator's view of the source (headers only)"])
    print(f"[C18] {ctx.tier}: {obligations} theorems ({discharged} audited), {len(results)} probe programs, {len(bad)} unexpected, {time.time()-ctx.t0:.1f}s")
    for path, suffix in violations:
        print(f"VIOLATION property=C18 replay={path}{suffix}")
    return 1 if violations else 0


def run(ctx, replay):
    if ctx.prop == "C18":
        return run_c18(ctx, replay)
    import memsize_check
    return memsize_check.run(ctx, replay)
